/-
  Feed-forward sweep: evaluating the components in ANY topological order yields the unique solution of the coupled
  equations  e v = x v (exogenous v),  e v = c.fn e v (v an output of c).  Hence the result does not depend on the order
  in which components are listed.
-/
import AmiscModel.Sys

namespace Amisc

/-- every variable has at most one producer among the listed components -/
def UniqueProducers (cs : List SComp) : Prop :=
  ∀ c ∈ cs, ∀ d ∈ cs, ∀ v, v ∈ c.outs → v ∈ d.outs → c = d

/-- a component's function only reads its declared inputs -/
def ReadsIns (cs : List SComp) : Prop :=
  ∀ c ∈ cs, ∀ (e e' : Env), (∀ v ∈ c.ins, e v = e' v) → ∀ v, c.fn e v = c.fn e' v

theorem mem_produced {cs : List SComp} {v : String} : v ∈ produced cs ↔ ∃ c ∈ cs, v ∈ c.outs := by
  simp [produced, List.mem_flatMap]

theorem ready_iff {all done : List SComp} {c : SComp} :
    ready all done c = true ↔ ∀ v ∈ c.ins, v ∈ produced all → v ∈ produced done := by
  simp only [ready, List.all_eq_true, Bool.or_eq_true, Bool.not_eq_eq_eq_not, Bool.not_true, decide_eq_false_iff_not,
    decide_eq_true_eq]
  constructor
  · intro h v hv hp
    rcases h v hv with h1 | h1
    · exact absurd hp h1
    · exact h1
  · intro h v hv
    by_cases hp : v ∈ produced all
    · exact Or.inr (h v hv hp)
    · exact Or.inl hp

/-- the coupled equations -/
structure Sol (cs : List SComp) (x e : Env) : Prop where
  exo : ∀ v, v ∉ produced cs → e v = x v
  eqs : ∀ c ∈ cs, ∀ v ∈ c.outs, e v = c.fn e v

theorem runComp_out {c : SComp} {e : Env} {v : String} (h : v ∈ c.outs) : runComp c e v = c.fn e v := by
  simp [runComp, h]

theorem runComp_other {c : SComp} {e : Env} {v : String} (h : v ∉ c.outs) : runComp c e v = e v := by
  simp [runComp, h]

/-- invariant of the sweep along a topological order -/
theorem sweep_inv (all : List SComp) (hu : UniqueProducers all) (hr : ReadsIns all) (x : Env) :
    ∀ (rest done : List SComp) (e : Env),
      (∀ c ∈ done, c ∈ all) → (∀ c ∈ rest, c ∈ all) → (∀ c ∈ rest, c ∉ done) → rest.Nodup →
      isTopo all done rest = true →
      (∀ v, v ∉ produced done → e v = x v) →
      (∀ c ∈ done, ∀ v ∈ c.outs, e v = c.fn e v) →
      (∀ c ∈ done, ∀ v ∈ c.ins, v ∈ produced all → v ∈ produced done) →
      (∀ v, v ∉ produced (done ++ rest) → sweep rest e v = x v) ∧
      (∀ c ∈ done ++ rest, ∀ v ∈ c.outs, sweep rest e v = c.fn (sweep rest e) v)
  | [], done, e, _, _, _, _, _, h1, h2, _ => by
      simp only [List.append_nil, sweep, List.foldl_nil]
      exact ⟨h1, h2⟩
  | c :: rest, done, e, hd, hrst, hnd, hnodup, htopo, h1, h2, h3 => by
      simp only [isTopo, Bool.and_eq_true] at htopo
      obtain ⟨hready, htopo'⟩ := htopo
      have hcall : c ∈ all := hrst c (by simp)
      have hcnd : c ∉ done := hnd c (by simp)
      have hrd := ready_iff.mp hready
      -- outputs of c are produced by nobody in `done`
      have hfresh : ∀ v ∈ c.outs, v ∉ produced done := by
        intro v hv hp
        obtain ⟨d, hdd, hvd⟩ := mem_produced.mp hp
        have := hu c hcall d (hd d hdd) v hv hvd
        exact hcnd (this ▸ hdd)
      -- inputs of c are not outputs of c
      have hins : ∀ v ∈ c.ins, v ∉ c.outs := by
        intro v hv hvo
        have : v ∈ produced all := mem_produced.mpr ⟨c, hcall, hvo⟩
        exact hfresh v hvo (hrd v hv this)
      let e' := runComp c e
      have hagree : ∀ (d : SComp), (∀ v ∈ d.ins, v ∉ c.outs) → ∀ v ∈ d.ins, e' v = e v :=
        fun d hdi v hv => runComp_other (hdi v hv)
      have ih := sweep_inv all hu hr x rest (done ++ [c]) e'
        (by intro d hdm; rcases List.mem_append.mp hdm with h | h
            · exact hd d h
            · simp only [List.mem_singleton] at h; exact h ▸ hcall)
        (fun d hdm => hrst d (by simp [hdm]))
        (by intro d hdm hdd
            rcases List.mem_append.mp hdd with h | h
            · exact hnd d (by simp [hdm]) h
            · simp only [List.mem_singleton] at h
              subst h
              exact (List.nodup_cons.mp hnodup).1 hdm)
        (List.nodup_cons.mp hnodup).2 htopo'
        (by intro v hv
            have hv1 : v ∉ produced done := fun hp =>
              hv (mem_produced.mpr (by obtain ⟨d, hdd, hvd⟩ := mem_produced.mp hp; exact ⟨d, by simp [hdd], hvd⟩))
            have hv2 : v ∉ c.outs := fun ho => hv (mem_produced.mpr ⟨c, by simp, ho⟩)
            show runComp c e v = x v
            rw [runComp_other hv2]; exact h1 v hv1)
        (by intro d hdm v hv
            rcases List.mem_append.mp hdm with h | h
            · -- d was done before: its outputs and inputs are untouched by c
              have hvc : v ∉ c.outs := by
                intro ho
                exact hfresh v ho (mem_produced.mpr ⟨d, h, hv⟩)
              have hdins : ∀ w ∈ d.ins, w ∉ c.outs := by
                intro w hw ho
                have hp : w ∈ produced all := mem_produced.mpr ⟨c, hcall, ho⟩
                exact hfresh w ho (h3 d h w hw hp)
              show runComp c e v = d.fn (runComp c e) v
              rw [runComp_other hvc, h2 d h v hv]
              exact hr d (hd d h) e (runComp c e) (fun w hw => (hagree d hdins w hw).symm) v
            · simp only [List.mem_singleton] at h
              subst h
              show runComp d e v = d.fn (runComp d e) v
              rw [runComp_out hv]
              exact hr d hcall e (runComp d e) (fun w hw => (hagree d hins w hw).symm) v)
        (by intro d hdm v hv hp
            rcases List.mem_append.mp hdm with h | h
            · obtain ⟨p, hpd, hvp⟩ := mem_produced.mp (h3 d h v hv hp)
              exact mem_produced.mpr ⟨p, by simp [hpd], hvp⟩
            · simp only [List.mem_singleton] at h
              subst h
              obtain ⟨p, hpd, hvp⟩ := mem_produced.mp (hrd v hv hp)
              exact mem_produced.mpr ⟨p, by simp [hpd], hvp⟩)
      simp only [sweep, List.foldl_cons] at ih ⊢
      have hassoc : done ++ [c] ++ rest = done ++ c :: rest := by simp
      rw [hassoc] at ih
      exact ih

/-- a topological sweep solves the coupled equations -/
theorem sweep_sol (order : List SComp) (hu : UniqueProducers order) (hr : ReadsIns order) (hnd : order.Nodup)
    (htopo : isTopo order [] order = true) (x : Env) : Sol order x (sweep order x) := by
  have h := sweep_inv order hu hr x order [] x (by simp) (fun c h => h) (by simp) hnd htopo
    (fun v _ => rfl) (by simp) (by simp)
  simp only [List.nil_append] at h
  exact ⟨h.1, h.2⟩

/-- uniqueness of the solution along any topological order -/
theorem sol_unique_aux (all : List SComp) (hr : ReadsIns all) (x e e' : Env) (hs : Sol all x e) (hs' : Sol all x e') :
    ∀ (rest done : List SComp), (∀ c ∈ rest, c ∈ all) → isTopo all done rest = true →
      (∀ v ∈ produced done, e v = e' v) → ∀ v ∈ produced (done ++ rest), e v = e' v
  | [], done, _, _, h => by simpa using h
  | c :: rest, done, hrst, htopo, h => by
      simp only [isTopo, Bool.and_eq_true] at htopo
      obtain ⟨hready, htopo'⟩ := htopo
      have hcall : c ∈ all := hrst c (by simp)
      have hrd := ready_iff.mp hready
      have hin : ∀ v ∈ c.ins, e v = e' v := by
        intro v hv
        by_cases hp : v ∈ produced all
        · exact h v (hrd v hv hp)
        · rw [hs.exo v hp, hs'.exo v hp]
      have hout : ∀ v ∈ c.outs, e v = e' v := by
        intro v hv
        rw [hs.eqs c hcall v hv, hs'.eqs c hcall v hv]
        exact hr c hcall e e' hin v
      have ih := sol_unique_aux all hr x e e' hs hs' rest (done ++ [c]) (fun d hd => hrst d (by simp [hd])) htopo'
        (by intro v hv
            obtain ⟨d, hd, hvd⟩ := mem_produced.mp hv
            rcases List.mem_append.mp hd with h' | h'
            · exact h v (mem_produced.mpr ⟨d, h', hvd⟩)
            · simp only [List.mem_singleton] at h'; subst h'; exact hout v hvd)
      intro v hv
      apply ih v
      simpa using hv

theorem sol_unique (all : List SComp) (hr : ReadsIns all) (htopo : isTopo all [] all = true) (x e e' : Env)
    (hs : Sol all x e) (hs' : Sol all x e') : ∀ v, e v = e' v := by
  intro v
  by_cases hp : v ∈ produced all
  · have := sol_unique_aux all hr x e e' hs hs' all [] (fun c h => h) htopo (by simp [produced]) v
    exact this (by simpa using hp)
  · rw [hs.exo v hp, hs'.exo v hp]

theorem produced_perm {a b : List SComp} (h : a.Perm b) (v : String) : v ∈ produced a ↔ v ∈ produced b := by
  rw [mem_produced, mem_produced]
  constructor
  · rintro ⟨c, hc, hv⟩; exact ⟨c, h.mem_iff.mp hc, hv⟩
  · rintro ⟨c, hc, hv⟩; exact ⟨c, h.mem_iff.mpr hc, hv⟩

theorem sol_perm {a b : List SComp} (h : a.Perm b) {x e : Env} (hs : Sol a x e) : Sol b x e :=
  ⟨fun v hv => hs.exo v (fun hp => hv ((produced_perm h v).mp hp)),
   fun c hc v hv => hs.eqs c (h.mem_iff.mpr hc) v hv⟩

end Amisc
