/-
  Bridge between the executable list model of the 1-d barycentric interpolator (`Amisc.basis`, `wtsInit`, …) and Mathlib's
  `Lagrange.basis` over `Finset.range n` with nodes `i ↦ grid.getD i 0`.
-/
import AmiscProofs.WeightsProofs
import AmiscProofs.BaryDeriv

open Polynomial Finset Lagrange

namespace Amisc.LL

/-- the node map of a grid -/
def nodeFn (grid : List Q) : ℕ → ℚ := fun i => grid.getD i 0

theorem nodeFn_lt {grid : List Q} {i : ℕ} (hi : i < grid.length) : nodeFn grid i = grid[i] := by
  simp [nodeFn, List.getD_eq_getElem?_getD, List.getElem?_eq_getElem hi]

theorem injOn_nodeFn {grid : List Q} (h : grid.Nodup) :
    Set.InjOn (nodeFn grid) (range grid.length : Finset ℕ) := by
  intro a ha b hb hab
  simp only [coe_range, Set.mem_Iio] at ha hb
  rw [nodeFn_lt ha, nodeFn_lt hb] at hab
  exact (List.Nodup.getElem_inj_iff h).mp hab

theorem list_prod_range (f : ℕ → ℚ) : ∀ n, ((List.range n).map f).prod = ∏ i ∈ range n, f i
  | 0 => by simp
  | n + 1 => by
      rw [List.range_succ, List.map_append, List.prod_append, Finset.prod_range_succ, list_prod_range f n]
      simp

theorem list_sum_range (f : ℕ → ℚ) : ∀ n, ((List.range n).map f).sum = ∑ i ∈ range n, f i
  | 0 => by simp
  | n + 1 => by
      rw [List.range_succ, List.map_append, List.sum_append, Finset.sum_range_succ, list_sum_range f n]
      simp

theorem qsum_eq_sum (l : List Q) : qsum l = l.sum := by
  unfold qsum
  have : ∀ (l : List Q) (a : Q), l.foldl (· + ·) a = a + l.sum := by
    intro l
    induction l with
    | nil => intro a; simp
    | cons b l ih => intro a; simp only [List.foldl_cons, List.sum_cons]; rw [ih]; ring
  rw [this l 0, zero_add]

/-- a list is the map of its index range -/
theorem list_eq_map_range (l : List Q) : l = (List.range l.length).map fun i => l.getD i 0 := by
  apply List.ext_getElem
  · simp
  · intro i h1 h2
    simp [List.getD_eq_getElem?_getD, List.getElem?_eq_getElem h1]

theorem list_sum_eq_range (l : List Q) : l.sum = ∑ i ∈ range l.length, l.getD i 0 := by
  conv_lhs => rw [list_eq_map_range l]
  exact list_sum_range _ _

/-- direct weights with capacity 1 are Mathlib's nodal weights -/
theorem directWeight_one (grid : List Q) (j : ℕ) (hj : j < grid.length) :
    directWeight 1 grid j = nodalWeight (range grid.length) (nodeFn grid) j := by
  unfold directWeight nodalWeight
  rw [list_prod_range]
  have hmem : j ∈ range grid.length := mem_range.mpr hj
  rw [← Finset.mul_prod_erase _ _ hmem]
  simp only [if_true, one_mul]
  apply Finset.prod_congr rfl
  intro i hi
  have : i ≠ j := (Finset.mem_erase.mp hi).1
  simp [this, nodeFn]

/-- `wtsInit C grid` are nodal weights times the common factor `C^(n-1)` -/
theorem wtsInit_eq (C : Q) (grid : List Q) (j : ℕ) (hj : j < grid.length) :
    (wtsInit C grid).getD j 0 = C ^ (grid.length - 1) * nodalWeight (range grid.length) (nodeFn grid) j := by
  rw [wtsInit_getD C grid j hj, directWeight_scale 1 C one_ne_zero grid j hj, div_one, directWeight_one grid j hj]


/-! ### node flags at tolerance 0 -/

theorem qabs_le_zero (y : Q) : qabs y ≤ 0 ↔ y = 0 := by
  unfold qabs
  constructor
  · intro h
    by_cases hy : y < 0
    · rw [if_pos hy] at h; linarith
    · rw [if_neg hy] at h; linarith
  · intro h; subst h; simp

theorem flagged_getD (x : Q) (grid : List Q) (j : ℕ) (hj : j < grid.length) :
    (flagged 0 x grid).getD j false = decide (x = nodeFn grid j) := by
  unfold flagged
  rw [List.getD_eq_getElem?_getD, List.getElem?_map, List.getElem?_eq_getElem hj]
  simp only [Option.map_some, Option.getD_some, nodeFn_lt hj]
  rw [decide_eq_decide, qabs_le_zero, sub_eq_zero]

theorem flagged_any (x : Q) (grid : List Q) :
    (flagged 0 x grid).any id = true ↔ ∃ k, k < grid.length ∧ x = nodeFn grid k := by
  unfold flagged
  rw [List.any_map, List.any_eq_true]
  constructor
  · rintro ⟨y, hy, h⟩
    obtain ⟨k, hk, rfl⟩ := List.getElem_of_mem hy
    refine ⟨k, hk, ?_⟩
    simp only [Function.comp, id, decide_eq_true_eq, qabs_le_zero, sub_eq_zero] at h
    rw [nodeFn_lt hk]; exact h
  · rintro ⟨k, hk, h⟩
    refine ⟨grid[k], List.getElem_mem hk, ?_⟩
    simp only [Function.comp, id, decide_eq_true_eq, qabs_le_zero, sub_eq_zero]
    rw [← nodeFn_lt hk]; exact h

theorem diffs_off (x : Q) (grid : List Q) (hx : ∀ k, k < grid.length → x ≠ nodeFn grid k) :
    diffs 0 x grid = grid.map fun xk => x - xk := by
  unfold diffs
  apply List.map_congr_left
  intro xk hk
  obtain ⟨k, hk', rfl⟩ := List.getElem_of_mem hk
  have : x ≠ grid[k] := by rw [← nodeFn_lt hk']; exact hx k hk'
  rw [if_neg]
  rw [qabs_le_zero, sub_eq_zero]; exact this

theorem quots_off_getD (x : Q) (grid ws : List Q) (hlen : ws.length = grid.length)
    (hx : ∀ k, k < grid.length → x ≠ nodeFn grid k) (j : ℕ) (hj : j < grid.length) :
    (quots 0 x grid ws).getD j 0 = ws.getD j 0 / (x - nodeFn grid j) := by
  unfold quots
  rw [diffs_off x grid hx]
  have hj' : j < ws.length := by omega
  simp [List.getD_eq_getElem?_getD, List.getElem?_zipWith, List.getElem?_eq_getElem hj', List.getElem?_eq_getElem hj,
    nodeFn_lt hj]

theorem quots_length (tol x : Q) (grid ws : List Q) (hlen : ws.length = grid.length) :
    (quots tol x grid ws).length = grid.length := by
  simp [quots, diffs, hlen]

theorem qsum_quots_off (x : Q) (grid ws : List Q) (hlen : ws.length = grid.length)
    (hx : ∀ k, k < grid.length → x ≠ nodeFn grid k) :
    qsum (quots 0 x grid ws) = ∑ i ∈ range grid.length, ws.getD i 0 / (x - nodeFn grid i) := by
  rw [qsum_eq_sum, list_sum_eq_range, quots_length 0 x grid ws hlen]
  apply Finset.sum_congr rfl
  intro i hi
  exact quots_off_getD x grid ws hlen hx i (mem_range.mp hi)

/-- **the value computed by `Lagrange.predict` for one basis function is the Lagrange basis polynomial** (coincidence
    tolerance 0; weights = any non-zero multiple of the nodal weights) -/
theorem basis_eq_eval (grid ws : List Q) (hnd : grid.Nodup) (hlen : ws.length = grid.length) (c : Q) (hc : c ≠ 0)
    (hw : ∀ i, i < grid.length → ws.getD i 0 = c * nodalWeight (range grid.length) (nodeFn grid) i)
    (x : Q) (j : ℕ) (hj : j < grid.length) :
    basis 0 x grid ws j = eval x (Lagrange.basis (range grid.length) (nodeFn grid) j) := by
  have hinj := injOn_nodeFn hnd
  have hjm : j ∈ range grid.length := mem_range.mpr hj
  unfold basis
  dsimp only
  rw [flagged_getD x grid j hj]
  by_cases h1 : x = nodeFn grid j
  · rw [if_pos (by simpa using h1), h1, eval_basis_self hinj hjm]
  · rw [if_neg (by simpa using h1)]
    by_cases h2 : (flagged 0 x grid).any id = true
    · rw [if_pos h2]
      obtain ⟨k, hk, hxk⟩ := (flagged_any x grid).mp h2
      have hkj : j ≠ k := fun e => h1 (e ▸ hxk)
      rw [hxk, eval_basis_of_ne hkj (mem_range.mpr hk)]
    · rw [if_neg h2]
      have hx : ∀ k, k < grid.length → x ≠ nodeFn grid k := by
        intro k hk e
        exact h2 ((flagged_any x grid).mpr ⟨k, hk, e⟩)
      rw [quots_off_getD x grid ws hlen hx j hj, qsum_quots_off x grid ws hlen hx]
      rw [← Amisc.Bary.second_form_basis hinj j hjm hc (fun i hi => hx i (mem_range.mp hi))]
      have hsum : (∑ i ∈ range grid.length, ws.getD i 0 / (x - nodeFn grid i)) =
          ∑ i ∈ range grid.length, c * nodalWeight (range grid.length) (nodeFn grid) i * (x - nodeFn grid i)⁻¹ := by
        apply Finset.sum_congr rfl
        intro i hi
        rw [hw i (mem_range.mp hi), div_eq_mul_inv]
      rw [hsum, hw j hj, div_eq_mul_inv (c * _) (x - nodeFn grid j)]

/-- 1-d interpolation through the model's basis values reproduces every polynomial of degree < number of nodes -/
theorem interp1_exact (grid ws : List Q) (hnd : grid.Nodup) (hlen : ws.length = grid.length) (c : Q) (hc : c ≠ 0)
    (hw : ∀ i, i < grid.length → ws.getD i 0 = c * nodalWeight (range grid.length) (nodeFn grid) i)
    (p : ℚ[X]) (hp : p.degree < grid.length) (x : Q) :
    ∑ j ∈ range grid.length, basis 0 x grid ws j * eval (nodeFn grid j) p = eval x p := by
  have hinj := injOn_nodeFn hnd
  have hcard : p.degree < (range grid.length).card := by simpa using hp
  have := eq_interpolate hinj hcard
  conv_rhs => rw [this]
  rw [interpolate_apply, eval_finsetSum]
  apply Finset.sum_congr rfl
  intro j hj
  rw [basis_eq_eval grid ws hnd hlen c hc hw x j (mem_range.mp hj), eval_mul, eval_C, mul_comm]

end Amisc.LL
