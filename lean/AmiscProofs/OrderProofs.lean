/-
  AmiscProofs.OrderProofs — the common enumeration order of the training store (`_expand_grid_coords`) and the interpolator loops
  (`itertools.product` over per-dimension ranges) is ROW-MAJOR: the coordinate `c` sits at position `ravel sizes c`.
-/
import AmiscModel.Store
import AmiscModel.Shape
import Mathlib.Tactic.Ring
import Mathlib.Tactic.Linarith

namespace Amisc.Order

theorem shapeSize_cons' (n : Nat) (ns : Shape) : shapeSize (n :: ns) = n * shapeSize ns := by
  unfold shapeSize
  simp only [List.foldl_cons, Nat.one_mul]
  have : ∀ (l : List Nat) (a : Nat), l.foldl (· * ·) a = a * l.foldl (· * ·) 1 := by
    intro l; induction l with
    | nil => intro a; simp
    | cons x xs ih => intro a; simp only [List.foldl_cons]; rw [ih (a * x), ih (1 * x)]; ring
  exact this ns n

theorem length_flatMap_range {α : Type} (f : Nat → List α) (m : Nat) (hf : ∀ a, (f a).length = m) :
    ∀ (n : Nat), ((List.range n).flatMap f).length = n * m
  | 0 => by simp
  | k + 1 => by
      rw [List.range_succ, List.flatMap_append, List.length_append, length_flatMap_range f m hf k]
      simp [hf, Nat.succ_mul]

/-- blocks of equal length: the element at `a * m + r` of the concatenation over `range n` is the `r`-th element of block `a` -/
theorem getElem?_flatMap_range {α : Type} (f : Nat → List α) (m : Nat) (hf : ∀ a, (f a).length = m) :
    ∀ (n a r : Nat), a < n → r < m → ((List.range n).flatMap f)[a * m + r]? = (f a)[r]?
  | 0, a, r, ha, _ => by omega
  | n + 1, a, r, ha, hr => by
      have hlen : ((List.range n).flatMap f).length = n * m := length_flatMap_range f m hf n
      rw [List.range_succ, List.flatMap_append]
      by_cases hlt : a < n
      · have hidx : a * m + r < n * m := by
          have : (a + 1) * m ≤ n * m := Nat.mul_le_mul_right m hlt
          rw [Nat.succ_mul] at this; omega
        rw [List.getElem?_append_left (by rw [hlen]; exact hidx)]
        exact getElem?_flatMap_range f m hf n a r hlt hr
      · have han : a = n := by omega
        subst han
        rw [List.getElem?_append_right (by rw [hlen]; omega), hlen]
        simp

theorem length_prodIdx : ∀ (s : List Nat), (prodIdx s).length = shapeSize s
  | [] => by simp [prodIdx, shapeSize]
  | n :: ns => by
      rw [shapeSize_cons', prodIdx]
      have hb : ∀ a, ((prodIdx ns).map (a :: ·)).length = shapeSize ns := by intro a; simp [length_prodIdx ns]
      exact length_flatMap_range (fun a => (prodIdx ns).map (a :: ·)) (shapeSize ns) hb n

/-- **the coordinate with row-major index `ravel s c` in the enumeration of the store / the interpolator loops is `c`** -/
theorem prodIdx_getElem_ravel : ∀ (s c : List Nat), c.length = s.length → (∀ k, k < s.length → c.getD k 0 < s.getD k 0) →
    (prodIdx s)[ravel s c]? = some c
  | [], [], _, _ => by simp [prodIdx, ravel]
  | [], _ :: _, h, _ => by simp at h
  | _ :: _, [], h, _ => by simp at h
  | n :: ns, i :: is, hl, hb => by
      have hi : i < n := by simpa using hb 0 (by simp)
      have hrest : ∀ k, k < ns.length → is.getD k 0 < ns.getD k 0 := fun k hk => by simpa using hb (k + 1) (by simp; omega)
      have ih := prodIdx_getElem_ravel ns is (by simpa using hl) hrest
      have hr : ravel ns is < shapeSize ns := by
        rw [← length_prodIdx]
        by_contra hge
        rw [List.getElem?_eq_none (by omega)] at ih
        exact absurd ih (by simp)
      simp only [prodIdx, ravel]
      rw [getElem?_flatMap_range (fun a => (prodIdx ns).map (a :: ·)) (shapeSize ns) (by intro a; simp [length_prodIdx]) n i
        (ravel ns is) hi hr]
      simp [ih]

end Amisc.Order
