/-
  AmiscProofs.LejaProofs — the Leja sequence of `SparseGrid.collocation_1d` is equivariant under affine changes of units
  (C17): mapping bounds, weight function and candidate points by `z ↦ a z + b` (`a > 0`) maps every chosen point.
-/
import Mathlib.Algebra.Order.Field.Basic
import Mathlib.Algebra.Order.Ring.Abs
import Mathlib.Tactic.Ring
import Mathlib.Tactic.Linarith
import Mathlib.Tactic.Positivity
import AmiscModel.Leja

namespace Amisc.Leja

theorem foldl_mul_left (c : Q) : ∀ (l : List Q) (acc : Q), l.foldl (· * ·) (c * acc) = c * l.foldl (· * ·) acc
  | [], _ => rfl
  | x :: xs, acc => by
      simp only [List.foldl_cons]
      rw [mul_assoc, foldl_mul_left c xs (acc * x)]

theorem foldl_scale {α : Type} (a : Q) (h : α → Q) : ∀ (l : List α) (acc : Q),
    (l.map fun p => a * h p).foldl (· * ·) acc = a ^ l.length * (l.map h).foldl (· * ·) acc
  | [], acc => by simp
  | x :: xs, acc => by
      simp only [List.map_cons, List.foldl_cons, List.length_cons]
      rw [foldl_scale a h xs (acc * (a * h x))]
      have : acc * (a * h x) = a * (acc * h x) := by ring
      rw [this, foldl_mul_left a]
      ring

/-- the objective scales by the positive constant `a ^ #points` -/
theorem obj_scale (w w' : Q → Q) (a b : Q) (ha : 0 < a) (hw : ∀ z, w' (a * z + b) = w z) (pts : List Q) (z : Q) :
    Gen.lejaObjNeg w' (pts.map fun p => a * p + b) (a * z + b) = a ^ pts.length * Gen.lejaObjNeg w pts z := by
  unfold Gen.lejaObjNeg
  rw [hw, List.map_map]
  have hel : ((fun p => if a * z + b - p < 0 then -(a * z + b - p) else a * z + b - p) ∘ fun p => a * p + b) =
      fun p => a * (if z - p < 0 then -(z - p) else z - p) := by
    funext p
    simp only [Function.comp]
    have h : a * z + b - (a * p + b) = a * (z - p) := by ring
    rw [h]
    by_cases hz : z - p < 0
    · have : a * (z - p) < 0 := mul_neg_of_pos_of_neg ha hz
      simp only [hz, this, if_true]; ring
    · have : ¬ a * (z - p) < 0 := not_lt.mpr (mul_nonneg ha.le (not_lt.mp hz))
      simp only [hz, this, if_false]
  rw [hel, foldl_scale a (fun p => if z - p < 0 then -(z - p) else z - p) pts 1]
  ring

/-- an ideal minimiser commutes with a strictly increasing re-parameterisation of the candidates when the objective changes by
    a positive factor -/
theorem argminOn_map (f f' : Q → Q) (φ : Q → Q) (k : Q) (hk : 0 < k) (hf : ∀ z, f' (φ z) = k * f z) :
    ∀ (cands : List Q) (best : Option Q), argminOn f' (cands.map φ) (best.map φ) = (argminOn f cands best).map φ
  | [], _ => rfl
  | z :: rest, none => by
      simp only [List.map_cons, Option.map_none, argminOn]
      exact argminOn_map f f' φ k hk hf rest (some z)
  | z :: rest, some b => by
      simp only [List.map_cons, Option.map_some, argminOn]
      have hiff : (f' (φ z) < f' (φ b)) ↔ (f z < f b) := by
        rw [hf z, hf b]; exact mul_lt_mul_iff_right₀ hk
      by_cases h : f z < f b
      · rw [if_pos h, if_pos (hiff.mpr h)]
        exact argminOn_map f f' φ k hk hf rest (some z)
      · rw [if_neg h, if_neg (fun hh => h (hiff.mp hh))]
        exact argminOn_map f f' φ k hk hf rest (some b)

theorem lejaNext_map (w w' : Q → Q) (a b : Q) (ha : 0 < a) (hw : ∀ z, w' (a * z + b) = w z) (cands pts : List Q) :
    lejaNext w' (cands.map fun p => a * p + b) (pts.map fun p => a * p + b) =
      (lejaNext w cands pts).map fun p => a * p + b := by
  unfold lejaNext
  exact argminOn_map (Gen.lejaObjNeg w pts) (Gen.lejaObjNeg w' (pts.map fun p => a * p + b)) (fun p => a * p + b)
    (a ^ pts.length) (by positivity) (fun z => obj_scale w w' a b ha hw pts z) cands none

theorem lejaSeq_map (w w' : Q → Q) (a b : Q) (ha : 0 < a) (hw : ∀ z, w' (a * z + b) = w z) (cands : List Q) :
    ∀ (n : Nat) (pts : List Q), lejaSeq w' (cands.map fun p => a * p + b) n (pts.map fun p => a * p + b) =
      (lejaSeq w cands n pts).map fun p => a * p + b
  | 0, _ => rfl
  | n + 1, pts => by
      simp only [lejaSeq]
      rw [lejaNext_map w w' a b ha hw cands pts]
      cases h : lejaNext w cands pts with
      | none => simp
      | some z =>
          simp only [Option.map_some]
          have := lejaSeq_map w w' a b ha hw cands n (pts ++ [z])
          simp only [List.map_append, List.map_cons, List.map_nil] at this
          exact this

end Amisc.Leja
