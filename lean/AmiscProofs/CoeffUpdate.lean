/-
  The incremental weight update (`update_misc_coeff`) adds exactly the inclusion–exclusion contributions of the new
  indices: lemma `addNew`.
-/
import AmiscProofs.IdxBasic

namespace Amisc

def CMap.val (m : CMap) (j : Idx) : Int := (m.get j).getD 0
def CMap.has (m : CMap) (j : Idx) : Bool := (m.get j).isSome

theorem CMap.val_bump (m : CMap) (i j : Idx) (δ : Int) :
    (m.bump i δ).val j = m.val j + (if j = i then δ else 0) := by
  unfold CMap.val
  rw [CMap.get_bump]
  by_cases h : j = i
  · subst h; simp
  · simp [h]

theorem CMap.has_bump (m : CMap) (i j : Idx) (δ : Int) :
    (m.bump i δ).has j = (m.has j || decide (j = i)) := by
  unfold CMap.has
  rw [CMap.get_bump]
  by_cases h : j = i
  · subst h; simp
  · simp [h]

/-- one iteration of the inner loop of `update_misc_coeff` -/
def stepU (new : Idx) (m : CMap) (old : Idx) : CMap :=
  match cubeDist new old with
  | some k => m.bump old (sgn k)
  | none => m

theorem updateOne_eq (new : Idx) (S : List Idx) (m : CMap) :
    updateOne new S m = (S ++ [new]).foldl (stepU new) m := rfl

theorem val_stepU (new : Idx) (m : CMap) (old j : Idx) :
    (stepU new m old).val j = m.val j + (if j = old then term new j else 0) := by
  unfold stepU term
  by_cases h : j = old
  · subst h
    cases hc : cubeDist new j with
    | none => simp
    | some k => simp [CMap.val_bump]
  · cases hc : cubeDist new old with
    | none => simp [h]
    | some k => simp [CMap.val_bump, h]

theorem has_stepU (new : Idx) (m : CMap) (old j : Idx) :
    (stepU new m old).has j = (m.has j || (decide (j = old) && (cubeDist new j).isSome)) := by
  unfold stepU
  by_cases h : j = old
  · subst h
    cases hc : cubeDist new j with
    | none => simp
    | some k => simp [CMap.has_bump]
  · cases hc : cubeDist new old with
    | none => simp [h]
    | some k => simp [CMap.has_bump, h]

theorem val_foldl_stepU (new : Idx) : ∀ (L : List Idx) (m : CMap) (j : Idx), L.Nodup →
    (L.foldl (stepU new) m).val j = m.val j + (if j ∈ L then term new j else 0)
  | [], m, j, _ => by simp
  | a :: L, m, j, hnd => by
      rw [List.foldl_cons, val_foldl_stepU new L _ j (List.nodup_cons.mp hnd).2, val_stepU]
      have hnot : a ∉ L := (List.nodup_cons.mp hnd).1
      by_cases hja : j = a
      · subst hja; simp [hnot]
      · by_cases hjl : j ∈ L
        · simp [hja, hjl]
        · simp [hja, hjl]

theorem has_foldl_stepU (new : Idx) : ∀ (L : List Idx) (m : CMap) (j : Idx),
    (L.foldl (stepU new) m).has j = (m.has j || (decide (j ∈ L) && (cubeDist new j).isSome))
  | [], m, j => by simp
  | a :: L, m, j => by
      rw [List.foldl_cons, has_foldl_stepU new L _ j, has_stepU]
      by_cases hja : j = a
      · subst hja; cases m.has j <;> cases (cubeDist new j).isSome <;> simp
      · simp [hja, Bool.or_assoc]

/-- sum of the contributions of a list of new indices to the weight of `j` -/
def contrib (S : List Idx) (news : List Idx) (j : Idx) : Int :=
  (news.map fun n => if j ∈ S ++ [n] then term n j else 0).sum

theorem val_updateCoeff (S : List Idx) : ∀ (news : List Idx) (m : CMap) (j : Idx),
    S.Nodup → (∀ n ∈ news, n ∉ S) →
    (updateCoeff news S m).val j = m.val j + contrib S news j
  | [], m, j, _, _ => by simp [updateCoeff, contrib]
  | n :: news, m, j, hS, hN => by
      have hnd : (S ++ [n]).Nodup := by
        rw [List.nodup_append]
        refine ⟨hS, by simp, ?_⟩
        intro a ha b hb
        simp only [List.mem_singleton] at hb
        subst hb
        intro hab
        subst hab
        exact hN a (by simp) ha
      have ih := val_updateCoeff S news (updateOne n S m) j hS (fun x hx => hN x (by simp [hx]))
      simp only [updateCoeff, List.foldl_cons] at ih ⊢
      rw [ih, updateOne_eq, val_foldl_stepU n _ m j hnd]
      simp only [contrib, List.map_cons, List.sum_cons]
      omega

theorem has_updateCoeff (S : List Idx) : ∀ (news : List Idx) (m : CMap) (j : Idx),
    (updateCoeff news S m).has j =
      (m.has j || news.any fun n => decide (j ∈ S ++ [n]) && (cubeDist n j).isSome)
  | [], m, j => by simp [updateCoeff]
  | n :: news, m, j => by
      have ih := has_updateCoeff S news (updateOne n S m) j
      simp only [updateCoeff, List.foldl_cons] at ih ⊢
      rw [ih, updateOne_eq, has_foldl_stepU]
      simp [Bool.or_assoc]

theorem IEsum_append (S T : List Idx) (j : Idx) : IEsum (S ++ T) j = IEsum S j + IEsum T j := by
  simp [IEsum, List.map_append, List.sum_append]

theorem perm_sum_int {l₁ l₂ : List Int} (h : l₁.Perm l₂) : l₁.sum = l₂.sum := by
  induction h with
  | nil => rfl
  | cons _ _ ih => simp [ih]
  | swap => simp only [List.sum_cons]; omega
  | trans _ _ ih₁ ih₂ => rw [ih₁, ih₂]

theorem IEsum_perm {S T : List Idx} (h : S.Perm T) (j : Idx) : IEsum S j = IEsum T j := by
  unfold IEsum
  exact perm_sum_int (h.map _)

/-- if nothing in `S` lies in the 0/1 cube above `j`, `j` receives no weight from `S` -/
theorem IEsum_eq_zero {S : List Idx} {j : Idx} (h : ∀ s ∈ S, cubeDist s j = none) : IEsum S j = 0 := by
  unfold IEsum
  induction S with
  | nil => rfl
  | cons a S ih =>
      simp only [List.map_cons, List.sum_cons]
      rw [term_eq_zero_of_none (h a (by simp)), ih (fun s hs => h s (by simp [hs]))]
      rfl

/-- for a duplicate-free list of pairwise cube-incomparable indices, a member gets weight exactly 1 (from itself) -/
theorem IEsum_self_of_incomparable : ∀ {N : List Idx} {j : Idx}, N.Nodup → j ∈ N →
    (∀ n ∈ N, n ≠ j → cubeDist n j = none) → IEsum N j = 1
  | [], _, _, h, _ => by simp at h
  | a :: N, j, hnd, hj, hinc => by
      unfold IEsum
      simp only [List.map_cons, List.sum_cons]
      have hnd' := List.nodup_cons.mp hnd
      by_cases haj : a = j
      · subst haj
        have : IEsum N a = 0 := IEsum_eq_zero (fun s hs => hinc s (by simp [hs]) (fun e => hnd'.1 (e ▸ hs)))
        unfold IEsum at this
        rw [this, term_self]; rfl
      · have hjN : j ∈ N := by
          rcases List.mem_cons.mp hj with h | h
          · exact absurd h.symm haj
          · exact h
        have ih := IEsum_self_of_incomparable hnd'.2 hjN (fun n hn hne => hinc n (by simp [hn]) hne)
        unfold IEsum at ih
        rw [ih, term_eq_zero_of_none (hinc a (by simp) haj)]; rfl

theorem contrib_of_mem {S news : List Idx} {j : Idx} (hj : j ∈ S) : contrib S news j = IEsum news j := by
  unfold contrib IEsum
  congr 1
  apply List.map_congr_left
  intro n _
  simp [hj]

theorem contrib_of_not_mem {S : List Idx} {j : Idx} (hj : j ∉ S) : ∀ {news : List Idx}, news.Nodup →
    contrib S news j = if j ∈ news then 1 else 0
  | [], _ => by simp [contrib]
  | n :: news, hnd => by
      have hnd' := List.nodup_cons.mp hnd
      have ih := contrib_of_not_mem hj hnd'.2
      unfold contrib at ih ⊢
      simp only [List.map_cons, List.sum_cons, List.mem_append, List.mem_singleton, hj, false_or, List.mem_cons,
        List.not_mem_nil, or_false]
      simp only [List.mem_append, List.mem_singleton, hj, false_or, List.mem_cons, List.not_mem_nil, or_false] at ih
      rw [ih]
      by_cases hjn : j = n
      · subst hjn
        simp [hnd'.1, term_self]
      · simp [hjn]

/-- **Incremental update lemma.** If `m` holds the inclusion–exclusion weights of `T`, then after
    `update_misc_coeff(N, T, m)` it holds those of `T ++ N`, provided the new indices are fresh, pairwise
    cube-incomparable, and no member of `T` lies in the cube above a new index. -/
theorem addNew {T N : List Idx} {m : CMap}
    (hT : T.Nodup) (hN : N.Nodup) (hfresh : ∀ n ∈ N, n ∉ T)
    (hinc : ∀ n ∈ N, ∀ n' ∈ N, n ≠ n' → cubeDist n n' = none)
    (habove : ∀ s ∈ T, ∀ n ∈ N, cubeDist s n = none)
    (hhas : ∀ j, m.has j = true ↔ j ∈ T)
    (hval : ∀ j ∈ T, m.val j = IEsum T j) :
    (∀ j, (updateCoeff N T m).has j = true ↔ j ∈ T ++ N) ∧
    (∀ j ∈ T ++ N, (updateCoeff N T m).val j = IEsum (T ++ N) j) := by
  constructor
  · intro j
    rw [has_updateCoeff]
    simp only [Bool.or_eq_true, List.any_eq_true, Bool.and_eq_true, decide_eq_true_eq, List.mem_append,
      List.mem_singleton, hhas]
    constructor
    · rintro (h | ⟨n, hn, hjn | hjn, _⟩)
      · exact Or.inl h
      · exact Or.inl hjn
      · exact Or.inr (hjn ▸ hn)
    · rintro (h | h)
      · exact Or.inl h
      · exact Or.inr ⟨j, h, Or.inr rfl, by simp [cubeDist_self]⟩
  · intro j hj
    rw [val_updateCoeff T N m j hT hfresh, IEsum_append]
    by_cases hjT : j ∈ T
    · rw [hval j hjT, contrib_of_mem hjT]
    · have hjN : j ∈ N := by
        rcases List.mem_append.mp hj with h | h
        · exact absurd h hjT
        · exact h
      have hv : m.val j = 0 := by
        have : m.has j = false := by
          cases hh : m.has j with
          | false => rfl
          | true => exact absurd ((hhas j).mp hh) hjT
        unfold CMap.val; unfold CMap.has at this
        cases hg : m.get j with
        | none => rfl
        | some v => simp [hg] at this
      rw [hv, contrib_of_not_mem hjT hN, if_pos hjN,
        IEsum_eq_zero (fun s hs => habove s hs j hjN),
        IEsum_self_of_incomparable hN hjN (fun n hn hne => hinc n hn j hjN hne)]

end Amisc
