/-
  Affine equivariance of the interpolation model (C17): under x ↦ a·x + b (a > 0) of nodes, evaluation point, domain
  (hence capacity C ↦ a·C) and coincidence tolerance (tol ↦ a·tol), weights and basis values are unchanged and the
  derivative factors scale by 1/a and 1/a².
-/
import AmiscModel.Interp
import Mathlib.Tactic.FieldSimp
import Mathlib.Tactic.Ring
import Mathlib.Tactic.Linarith
import Mathlib.Tactic.LinearCombination
import Mathlib.Algebra.Order.Field.Rat

namespace Amisc

theorem qabs_mul_pos (a x : Q) (ha : 0 < a) : qabs (a * x) = a * qabs x := by
  unfold qabs
  by_cases hx : x < 0
  · have : a * x < 0 := mul_neg_of_pos_of_neg ha hx
    simp [hx, this]
  · have : ¬ a * x < 0 := by
      push Not at hx ⊢
      exact mul_nonneg ha.le hx
    simp [hx, this]

theorem getD_map_lt {f : Q → Q} (xs : List Q) {j : Nat} (hj : j < xs.length) :
    (xs.map f).getD j 0 = f (xs.getD j 0) := by
  simp [List.getD_eq_getElem?_getD, List.getElem?_map, List.getElem?_eq_getElem hj]

/-- initial weights are invariant: the capacity scaling cancels the node scaling -/
theorem wtsInit_affine (a b C : Q) (ha : a ≠ 0) (xs : List Q) :
    wtsInit (a * C) (xs.map fun x => a * x + b) = wtsInit C xs := by
  unfold wtsInit
  simp only [List.length_map]
  apply List.map_congr_left
  intro j hj
  rw [List.mem_range] at hj
  congr 2
  apply List.map_congr_left
  intro i hi
  rw [List.mem_range] at hi
  by_cases hij : i = j
  · simp [hij]
  · simp only [hij, if_false]
    rw [getD_map_lt xs hj, getD_map_lt xs hi]
    by_cases hC : C = 0
    · simp [hC]
    · field_simp
      ring

theorem scaled_quot (a b C x y : Q) (ha : a ≠ 0) : a * C / (a * x + b - (a * y + b)) = C / (x - y) := by
  by_cases hd : x - y = 0
  · have : a * x + b - (a * y + b) = 0 := by linear_combination a * hd
    rw [this, hd]; simp
  · have : a * x + b - (a * y + b) = a * (x - y) := by ring
    rw [this]; field_simp

/-- one incremental step is invariant as well -/
theorem wtsAdd_affine (a b C : Q) (ha : a ≠ 0) (xs ws : List Q) (x : Q) :
    wtsAdd (a * C) (xs.map fun x => a * x + b) ws (a * x + b) = wtsAdd C xs ws x := by
  unfold wtsAdd
  have h1 : ∀ (xs ws : List Q),
      List.zipWith (fun xi wi => wi * (a * C / (xi - (a * x + b)))) (xs.map fun x => a * x + b) ws =
      List.zipWith (fun xi wi => wi * (C / (xi - x))) xs ws := by
    intro xs
    induction xs with
    | nil => intro ws; simp
    | cons y ys ih =>
        intro ws
        cases ws with
        | nil => simp
        | cons w ws => simp only [List.map_cons, List.zipWith_cons_cons, ih ws, scaled_quot a b C y x ha]
  have h2 : (List.map (fun xi => a * C / (a * x + b - xi)) (List.map (fun x => a * x + b) xs)) =
      List.map (fun xi => C / (x - xi)) xs := by
    rw [List.map_map]
    apply List.map_congr_left
    intro xi _
    simp only [Function.comp, scaled_quot a b C x xi ha]
  rw [h1, h2]

theorem flagged_affine (a b tol x : Q) (ha : 0 < a) (grid : List Q) :
    flagged (a * tol) (a * x + b) (grid.map fun g => a * g + b) = flagged tol x grid := by
  unfold flagged
  rw [List.map_map]
  apply List.map_congr_left
  intro g _
  simp only [Function.comp]
  have : a * x + b - (a * g + b) = a * (x - g) := by ring
  rw [this, qabs_mul_pos _ _ ha]
  have : (a * qabs (x - g) ≤ a * tol) ↔ (qabs (x - g) ≤ tol) := mul_le_mul_iff_of_pos_left ha
  simp [this]

theorem foldl_add_map_mul (c : Q) : ∀ (l : List Q) (s : Q),
    List.foldl (· + ·) (c * s) (l.map (c * ·)) = c * List.foldl (· + ·) s l
  | [], s => rfl
  | x :: l, s => by
      simp only [List.map_cons, List.foldl_cons]
      rw [← mul_add]
      exact foldl_add_map_mul c l (s + x)

theorem qsum_map_mul (c : Q) (l : List Q) : qsum (l.map (c * ·)) = c * qsum l := by
  unfold qsum
  have := foldl_add_map_mul c l 0
  rwa [mul_zero] at this

theorem diffs_affine_of_no_flag (a b tol x : Q) (ha : 0 < a) : ∀ (grid : List Q),
    (flagged tol x grid).any id = false →
    diffs (a * tol) (a * x + b) (grid.map fun g => a * g + b) = (diffs tol x grid).map (a * ·)
  | [], _ => rfl
  | g :: grid, h => by
      simp only [flagged, List.map_cons, List.any_cons, id, Bool.or_eq_false_iff, decide_eq_false_iff_not] at h
      have ih := diffs_affine_of_no_flag a b tol x ha grid (by simpa [flagged] using h.2)
      simp only [diffs, List.map_cons] at ih ⊢
      rw [ih]
      have e : a * x + b - (a * g + b) = a * (x - g) := by ring
      have hng : ¬ qabs (a * (x - g)) ≤ a * tol := by
        rw [qabs_mul_pos _ _ ha]
        intro hc
        exact h.1 ((mul_le_mul_iff_of_pos_left ha).mp hc)
      rw [e, if_neg hng, if_neg h.1]

theorem quots_affine_of_no_flag (a b tol x : Q) (ha : 0 < a) (grid ws : List Q)
    (h : (flagged tol x grid).any id = false) :
    quots (a * tol) (a * x + b) (grid.map fun g => a * g + b) ws = (quots tol x grid ws).map (a⁻¹ * ·) := by
  unfold quots
  rw [diffs_affine_of_no_flag a b tol x ha grid h]
  generalize diffs tol x grid = ds
  induction ws generalizing ds with
  | nil => simp
  | cons w ws ih =>
      cases ds with
      | nil => simp
      | cons d ds =>
          simp only [List.map_cons, List.zipWith_cons_cons, ih ds]
          congr 1
          by_cases hd : d = 0
          · simp [hd]
          · field_simp

/-- **Value equivariance** of the 1-d basis factor: with the tolerance scaled like the inputs, the value computed for the
    image point on the image grid equals the original value (weights are the same by `wtsInit_affine`). -/
theorem basis_affine (a b tol x : Q) (ha : 0 < a) (grid ws : List Q) (j : Nat) :
    basis (a * tol) (a * x + b) (grid.map fun g => a * g + b) ws j = basis tol x grid ws j := by
  unfold basis
  simp only [flagged_affine a b tol x ha grid]
  by_cases h1 : (flagged tol x grid).getD j false = true
  · simp only [h1, if_true]
  · by_cases h2 : (flagged tol x grid).any id = true
    · simp only [h1, h2, if_true]
    · have h2' : (flagged tol x grid).any id = false := by simpa using h2
      simp only [h1, h2, if_false]
      rw [quots_affine_of_no_flag a b tol x ha grid ws h2', qsum_map_mul]
      have hne : a⁻¹ ≠ 0 := inv_ne_zero ha.ne'
      by_cases hj : j < (quots tol x grid ws).length
      · have : ((quots tol x grid ws).map (a⁻¹ * ·)).getD j 0 = a⁻¹ * (quots tol x grid ws).getD j 0 := by
          simp [List.getD_eq_getElem?_getD, List.getElem?_map, List.getElem?_eq_getElem hj]
        rw [this, mul_div_mul_left _ _ hne]
      · have e1 : ((quots tol x grid ws).map (a⁻¹ * ·)).getD j 0 = 0 := by
          simp [List.getD_eq_getElem?_getD, List.getElem?_eq_none (Nat.le_of_not_lt hj)]
        have e2 : (quots tol x grid ws).getD j 0 = 0 := by
          simp [List.getD_eq_getElem?_getD, List.getElem?_eq_none (Nat.le_of_not_lt hj)]
        rw [e1, e2]; simp

end Amisc
