import AmiscModel.Index
import AmiscModel.Interp
import AmiscModel.Store
import AmiscModel.Sys
import AmiscModel.Shape
import AmiscModel.Generated.Transforms
import AmiscModel.Generated.Consts
import AmiscModel.Generated.Facts
