import AmiscModel.Index
