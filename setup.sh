#!/bin/bash
# MANIFEST.setup_cmd: build the Lean framework from files on disk only (offline).
set -e
cd "$(dirname "$0")"
/venv/bin/python -W ignore -c "
import sys; sys.path.insert(0, '.')
from harness.lib import core
log = []
print(core.regenerate(log).keys(), log)
"
cd lean && lake build
